package core

// C13 — a crash at any point leaves a restartable, self-consistent node (engine D "daemonnet").
//
// c13Rec takes, at every persistence hook firing (vfhook points key.save.*, key.reset.mid, dkgstore.*, and
// before/after every Put on the victim's base chain store), a file-system copy of the victim's whole config
// folder: the image a `kill -9` at that instruction would leave (process death keeps the page cache). The
// images are checked offline with fresh objects (c13CheckImage) and a subset is restarted in a child process.

import (
	"bytes"
	"context"
	"crypto/sha256"
	"encoding/hex"
	"errors"
	"fmt"
	"io/fs"
	"os"
	"path/filepath"
	"sort"
	"strings"
	"sync"
	"sync/atomic"
	"syscall"
	"time"

	"github.com/BurntSushi/toml"

	"github.com/drand/drand/v2/common"
	"github.com/drand/drand/v2/common/key"
	dlog "github.com/drand/drand/v2/common/log"
	"github.com/drand/drand/v2/crypto"
	"github.com/drand/drand/v2/internal/chain"
	"github.com/drand/drand/v2/internal/chain/boltdb"
	chainerrors "github.com/drand/drand/v2/internal/chain/errors"
	"github.com/drand/drand/v2/internal/dkg"
	"github.com/drand/drand/v2/internal/vfhook"
	"github.com/drand/kyber"
)

type c13Image struct {
	Seq     int               `json:"seq"`
	Hook    string            `json:"hook"`  // hook name (+":group" / ":share" / ":key" for key files)
	Own     bool              `json:"own"`   // the firing is attributable to the victim itself
	Label   string            `json:"label"` // crash-point label used in signatures
	Dir     string            `json:"-"`
	Hashes  map[string]string `json:"-"`
	Changed []string          `json:"changed"` // files whose content differs from the previous image
	Served  uint64            `json:"served"`
	HasSrv  bool              `json:"has_served"`
	InPlace string            `json:"in_place,omitempty"` // rel path of a file observed to be rewritten in place (torn synthesis base)
	Synth   string            `json:"synth,omitempty"`    // synthesized torn variant
	Epoch   uint32            `json:"db_epoch"`           // filled by the offline check
}

type c13Rec struct {
	nt     *c13Net
	victim *c13Node
	root   string
	run    *vfRun

	mu      sync.Mutex // serialises image taking and writer entry
	writers atomic.Int64
	images  []*c13Image
	last    map[string]string
	lastDir string

	served    atomic.Uint64
	hasServed atomic.Bool

	cmu      sync.Mutex
	counts   map[string]int
	created  map[string]c13FileID // path -> identity of the file right after create/truncate
	skipped  int
	finished []*dkg.DBState // every state handed to SaveFinished in this process (all nodes)
	disabled atomic.Bool

	// directory-entry events of the victim's groups/ folder in kernel order (inotify): creations, unlinks and
	// renames are atomic, so the ORDER alone tells which sets of files existed on disk between two of them,
	// even where no hook fires in between
	wfd     int
	wevents []c13DirEvent
}

type c13DirEvent struct {
	Name string `json:"name"`
	Op   string `json:"op"` // create | delete | moved_to | moved_from
	Seq  int    `json:"images_taken_so_far"`
}

// watchDir starts recording directory-entry events of dir.
func (r *c13Rec) watchDir(dir string) error {
	fd, err := syscall.InotifyInit1(syscall.IN_CLOEXEC)
	if err != nil {
		return err
	}
	if _, err := syscall.InotifyAddWatch(fd, dir, syscall.IN_CREATE|syscall.IN_DELETE|syscall.IN_MOVED_TO|syscall.IN_MOVED_FROM); err != nil {
		syscall.Close(fd)
		return err
	}
	r.wfd = fd
	go func() {
		buf := make([]byte, 64*1024)
		for {
			n, err := syscall.Read(fd, buf)
			if err != nil || n <= 0 {
				return
			}
			off := 0
			for off+syscall.SizeofInotifyEvent <= n {
				mask := uint32(buf[off+4]) | uint32(buf[off+5])<<8 | uint32(buf[off+6])<<16 | uint32(buf[off+7])<<24
				ln := int(uint32(buf[off+12]) | uint32(buf[off+13])<<8 | uint32(buf[off+14])<<16 | uint32(buf[off+15])<<24)
				name := strings.TrimRight(string(buf[off+syscall.SizeofInotifyEvent:off+syscall.SizeofInotifyEvent+ln]), "\x00")
				off += syscall.SizeofInotifyEvent + ln
				op := ""
				switch {
				case mask&syscall.IN_CREATE != 0:
					op = "create"
				case mask&syscall.IN_DELETE != 0:
					op = "delete"
				case mask&syscall.IN_MOVED_TO != 0:
					op = "moved_to"
				case mask&syscall.IN_MOVED_FROM != 0:
					op = "moved_from"
				}
				if op == "" {
					continue
				}
				r.cmu.Lock()
				r.wevents = append(r.wevents, c13DirEvent{Name: name, Op: op, Seq: -1})
				r.cmu.Unlock()
			}
		}
	}()
	return nil
}

func (r *c13Rec) stopWatch() {
	if r.wfd > 0 {
		syscall.Close(r.wfd)
		r.wfd = 0
	}
}

type c13FileID struct {
	ino  uint64
	size int64
}

func c13NewRec(nt *c13Net, victim *c13Node, root string, run *vfRun) *c13Rec {
	r := &c13Rec{nt: nt, victim: victim, root: root, run: run, counts: map[string]int{}, created: map[string]c13FileID{}}
	return r
}

func (r *c13Rec) enterWrite() {
	r.mu.Lock()
	r.writers.Add(1)
	r.mu.Unlock()
}
func (r *c13Rec) exitWrite() { r.writers.Add(-1) }

func (r *c13Rec) isVictimPath(p string) bool {
	return strings.HasPrefix(p, r.victim.folder+string(os.PathSeparator))
}

func c13FileKind(p string) string {
	switch filepath.Base(p) {
	case "drand_group.toml":
		return "group"
	case "dist_key.private":
		return "share"
	default:
		return "key"
	}
}

// point is the process-wide vfhook handler.
func (r *c13Rec) point(name string, args ...any) {
	if r.disabled.Load() {
		return
	}
	switch {
	case strings.HasPrefix(name, "key.save."):
		p, _ := args[0].(string)
		if !r.isVictimPath(p) {
			return
		}
		r.count(name)
		hook := name + ":" + c13FileKind(p)
		switch name {
		case "key.save.before":
			r.image(hook, true, "")
			r.enterWrite()
		case "key.save.created":
			r.exitWrite()
			if st, err := os.Stat(p); err == nil {
				if sys, ok := st.Sys().(*syscall.Stat_t); ok {
					r.cmu.Lock()
					r.created[p] = c13FileID{ino: sys.Ino, size: st.Size()}
					r.cmu.Unlock()
				}
			}
			r.image(hook, true, "")
			r.enterWrite()
		case "key.save.after":
			r.exitWrite()
			inplace := ""
			if st, err := os.Stat(p); err == nil {
				if sys, ok := st.Sys().(*syscall.Stat_t); ok {
					r.cmu.Lock()
					c, seen := r.created[p]
					r.cmu.Unlock()
					// the file we saw empty right after create/truncate is the very file that now holds the
					// content: the write happened in place, so every prefix was a possible on-disk state
					if seen && c.ino == sys.Ino && c.size == 0 && st.Size() > 0 {
						inplace, _ = filepath.Rel(r.victim.folder, p)
					}
				}
			}
			r.image(hook, true, inplace)
		}
	case name == "key.reset.mid":
		p, _ := args[0].(string)
		if !r.isVictimPath(p) {
			return
		}
		r.count(name)
		r.image(name, true, "")
	case strings.HasPrefix(name, "dkgstore."):
		// the hook does not say whose dkg.db it is: every firing is a crash instant for the victim too, and
		// every node's transaction is fenced so that no copy overlaps a bolt commit of the victim
		r.count(name)
		if strings.HasSuffix(name, ".before") {
			r.image(name, false, "")
			r.enterWrite()
		} else {
			r.exitWrite()
			if name == "dkgstore.savefinished.after" && len(args) > 1 {
				if st, ok := args[1].(*dkg.DBState); ok && st != nil {
					cp := *st
					r.cmu.Lock()
					r.finished = append(r.finished, &cp)
					r.cmu.Unlock()
				}
			}
			r.image(name, false, "")
		}
	}
}

// onPut is the tap on every node's base store; only the victim's Puts are crash points.
func (r *c13Rec) onPut(n *c13Node, after bool, b *common.Beacon, err error) {
	if n != r.victim || r.disabled.Load() {
		return
	}
	if !after {
		r.count("store.put.before")
		r.image("store.put.before", true, "")
		r.enterWrite()
		return
	}
	r.exitWrite()
	if err == nil {
		for {
			cur := r.served.Load()
			if b.Round <= cur && r.hasServed.Load() {
				break
			}
			if r.served.CompareAndSwap(cur, b.Round) {
				r.hasServed.Store(true)
				break
			}
		}
	}
	r.count("store.put.after")
	r.image("store.put.after", true, "")
}

func (r *c13Rec) count(name string) {
	r.cmu.Lock()
	r.counts[name]++
	r.cmu.Unlock()
}

func (r *c13Rec) noteServed(round uint64) {
	for {
		cur := r.served.Load()
		if round <= cur && r.hasServed.Load() {
			return
		}
		if r.served.CompareAndSwap(cur, round) {
			r.hasServed.Store(true)
			return
		}
	}
}

// image copies the victim's folder. Identical-to-previous copies are kept only as metadata (trivial image).
func (r *c13Rec) image(hook string, own bool, inplace string) *c13Image {
	r.mu.Lock()
	defer r.mu.Unlock()
	start := time.Now()
	for r.writers.Load() > 0 {
		if time.Since(start) > 3*time.Second {
			r.cmu.Lock()
			r.skipped++
			r.cmu.Unlock()
			return nil
		}
		time.Sleep(50 * time.Microsecond)
	}
	seq := len(r.images)
	dir := filepath.Join(r.root, fmt.Sprintf("%04d", seq))
	var hashes map[string]string
	var err error
	for attempt := 0; attempt < 6; attempt++ {
		os.RemoveAll(dir)
		var stable bool
		hashes, stable, err = c13CopyTree(r.victim.folder, dir)
		if err == nil && stable {
			break
		}
		if attempt == 5 {
			r.cmu.Lock()
			r.skipped++
			r.cmu.Unlock()
			os.RemoveAll(dir)
			return nil
		}
		time.Sleep(200 * time.Microsecond)
	}
	img := &c13Image{Seq: seq, Hook: hook, Own: own, Hashes: hashes, InPlace: inplace,
		Served: r.served.Load(), HasSrv: r.hasServed.Load()}
	for k, v := range hashes {
		if r.last[k] != v {
			img.Changed = append(img.Changed, k)
		}
	}
	for k := range r.last {
		if _, ok := hashes[k]; !ok {
			img.Changed = append(img.Changed, "-"+k)
		}
	}
	sort.Strings(img.Changed)
	if len(img.Changed) == 0 && seq > 0 {
		os.RemoveAll(dir) // trivial: same bytes as the previous image
		img.Dir = ""
	} else {
		img.Dir = dir
		r.lastDir = dir
	}
	r.last = hashes
	r.images = append(r.images, img)
	return img
}

// c13CopyTree copies src to dst with the plain file-system API (never through bolt) and reports whether no file
// changed (size / mtime / set of names) while the copy was being made.
func c13CopyTree(src, dst string) (map[string]string, bool, error) {
	type stt struct {
		size int64
		mt   time.Time
	}
	before := map[string]stt{}
	var files []string
	err := filepath.WalkDir(src, func(p string, d fs.DirEntry, err error) error {
		if err != nil {
			if errors.Is(err, fs.ErrNotExist) {
				return nil
			}
			return err
		}
		rel, _ := filepath.Rel(src, p)
		if d.IsDir() {
			return os.MkdirAll(filepath.Join(dst, rel), 0o750)
		}
		if !d.Type().IsRegular() {
			return nil
		}
		fi, err := d.Info()
		if err != nil {
			return nil
		}
		before[rel] = stt{fi.Size(), fi.ModTime()}
		files = append(files, rel)
		return nil
	})
	if err != nil {
		return nil, false, err
	}
	// group file before share file, key material before databases (see DESIGN: an unfenced Reset deletes the
	// share first; dkg.db is written before the files)
	sort.Slice(files, func(i, j int) bool { return c13CopyRank(files[i]) < c13CopyRank(files[j]) })
	hashes := map[string]string{}
	for _, rel := range files {
		b, err := os.ReadFile(filepath.Join(src, rel))
		if err != nil {
			if errors.Is(err, fs.ErrNotExist) {
				continue
			}
			return nil, false, err
		}
		mode := fs.FileMode(0o600)
		if fi, err := os.Stat(filepath.Join(src, rel)); err == nil {
			mode = fi.Mode().Perm()
		}
		if err := os.WriteFile(filepath.Join(dst, rel), b, mode|0o600); err != nil {
			return nil, false, err
		}
		_ = os.Chmod(filepath.Join(dst, rel), mode)
		h := sha256.Sum256(b)
		hashes[rel] = fmt.Sprintf("%d:%s", len(b), hex.EncodeToString(h[:12]))
	}
	stable := true
	n := 0
	_ = filepath.WalkDir(src, func(p string, d fs.DirEntry, err error) error {
		if err != nil || d.IsDir() || !d.Type().IsRegular() {
			return nil
		}
		rel, _ := filepath.Rel(src, p)
		fi, err := d.Info()
		if err != nil {
			stable = false
			return nil
		}
		n++
		if b, ok := before[rel]; !ok || b.size != fi.Size() || !b.mt.Equal(fi.ModTime()) {
			stable = false
		}
		return nil
	})
	if n != len(before) || len(hashes) != len(before) {
		stable = false
	}
	return hashes, stable, nil
}

func c13CopyRank(rel string) string {
	switch filepath.Base(rel) {
	case "drand_group.toml":
		return "0" + rel
	case "dist_key.private":
		return "1" + rel
	case "drand.db":
		return "3" + rel
	case "dkg.db":
		return "4" + rel
	}
	return "2" + rel
}

func (r *c13Rec) install() {
	vfhook.SetPoint(r.point)
	r.nt.onPut = r.onPut
}

func (r *c13Rec) uninstall() {
	r.disabled.Store(true)
	vfhook.SetPoint(nil)
}

// ---------------------------------------------------------------- offline check of one image

type c13Finding struct {
	Sig    string
	Detail string
}

type c13EpochRec struct {
	epoch     uint32
	groupTOML []byte
	group     *key.Group
	share     *key.Share
}

type c13Checker struct {
	sch      *crypto.Scheme
	pub      kyber.Point // group public key known to the harness from the first DKG (another node's memory)
	victim   *key.Identity
	beaconID string
	engine   chain.StorageType
	lg       dlog.Logger
	epochs   map[uint32]*c13EpochRec
}

const (
	c13RelGroup = "multibeacon/default/groups/drand_group.toml"
	c13RelShare = "multibeacon/default/groups/dist_key.private"
	c13RelChain = "multibeacon/default/db/drand.db"
	c13RelDKG   = "dkg.db"
)

func c13GroupBytes(g *key.Group) []byte {
	var b bytes.Buffer
	_ = toml.NewEncoder(&b).Encode(g.TOML())
	return b.Bytes()
}

func c13SameShare(a, b *key.Share) bool {
	if a == nil || b == nil || a.Share == nil || b.Share == nil {
		return false
	}
	if a.Share.I != b.Share.I || !a.Share.V.Equal(b.Share.V) || len(a.Commits) != len(b.Commits) {
		return false
	}
	for i := range a.Commits {
		if !a.Commits[i].Equal(b.Commits[i]) {
			return false
		}
	}
	return true
}

// c13ShareFitsGroup: the share belongs to the epoch of the group (same public polynomial, right index, and the
// private value lies on that polynomial).
func (c *c13Checker) shareFitsGroup(s *key.Share, g *key.Group) string {
	if s == nil || s.Share == nil || g == nil || g.PublicKey == nil {
		return "nil share or group"
	}
	co := g.PublicKey.Coefficients
	if len(co) != len(s.Commits) {
		return fmt.Sprintf("share has %d commits, group has %d public coefficients", len(s.Commits), len(co))
	}
	for i := range co {
		if !co[i].Equal(s.Commits[i]) {
			return fmt.Sprintf("share commit %d differs from the group's public coefficient", i)
		}
	}
	nd := g.Find(c.victim)
	if nd == nil {
		return "victim is not a member of the group"
	}
	if uint32(s.Share.I) != nd.Index {
		return fmt.Sprintf("share index %d, but the victim has index %d in the group", s.Share.I, nd.Index)
	}
	s2 := *s
	s2.Scheme = c.sch
	ev := s2.PubPoly().Eval(s.Share.I)
	if !ev.V.Equal(c.sch.KeyGroup.Point().Mul(s.Share.V, nil)) {
		return "private share value does not lie on the public polynomial"
	}
	return ""
}

type c13DBView struct {
	opened   bool
	finished *dkg.DBState
	current  *dkg.DBState
	err      error
}

func (c *c13Checker) readDKG(dir string) (v c13DBView) {
	defer func() {
		if p := recover(); p != nil {
			v.err = fmt.Errorf("panic: %v", p)
		}
	}()
	if _, err := os.Stat(filepath.Join(dir, c13RelDKG)); err != nil {
		v.err = err
		return
	}
	st, err := dkg.NewDKGStore(dir)
	if err != nil {
		v.err = err
		return
	}
	defer st.Close()
	v.opened = true
	v.finished, err = st.GetFinished(c.beaconID)
	if err != nil {
		v.err = fmt.Errorf("finished record: %w", err)
		return
	}
	v.current, err = st.GetCurrent(c.beaconID)
	if err != nil {
		v.err = fmt.Errorf("current record: %w", err)
	}
	return
}

// learnEpochs (pass 1) collects the completed epochs recorded by the sequence of images.
func (c *c13Checker) learn(dir string) {
	v := c.readDKG(dir)
	if v.finished != nil && v.finished.FinalGroup != nil {
		if _, ok := c.epochs[v.finished.Epoch]; !ok {
			c.epochs[v.finished.Epoch] = &c13EpochRec{epoch: v.finished.Epoch, groupTOML: c13GroupBytes(v.finished.FinalGroup),
				group: v.finished.FinalGroup, share: v.finished.KeyShare}
		}
	}
}

// check runs the offline oracle on a scratch copy of the image. labelFn turns the completed epoch found in the
// image's dkg.db into the crash-point label used in the signatures.
func (c *c13Checker) check(img *c13Image, dir string, labelFn func(epoch uint32, curState string) string) (out []c13Finding, info map[string]any, label string) {
	info = map[string]any{}
	add := func(sig, detail string) { out = append(out, c13Finding{sig, detail}) }

	// (2) dkg.db
	v := c.readDKG(dir)
	if v.finished != nil {
		label = labelFn(v.finished.Epoch, c13CurState(v.current))
	} else {
		label = labelFn(0, c13CurState(v.current))
	}
	info["label"] = label
	switch {
	case errors.Is(v.err, fs.ErrNotExist):
		add("C13/dkg-db-missing/"+label, "no dkg.db in the image")
	case v.err != nil:
		add("C13/dkg-db-unreadable/"+label, v.err.Error())
	}
	var dbEpoch uint32
	fin, cur := v.finished, v.current
	if fin != nil {
		dbEpoch = fin.Epoch
		img.Epoch = dbEpoch
		info["db_finished_epoch"] = fin.Epoch
		if fin.State != dkg.Complete {
			add("C13/dkg-finished-not-complete/"+label, fmt.Sprintf("finished record in state %s", fin.State))
		}
		if fin.FinalGroup == nil || fin.KeyShare == nil {
			add("C13/dkg-finished-not-whole/"+label, fmt.Sprintf("finished record epoch %d: group present=%v share present=%v", fin.Epoch, fin.FinalGroup != nil, fin.KeyShare != nil))
		} else {
			if why := c.shareFitsGroup(fin.KeyShare, fin.FinalGroup); why != "" {
				add("C13/dkg-finished-group-share-mismatch/"+label, fmt.Sprintf("finished record epoch %d: %s", fin.Epoch, why))
			}
			if !fin.FinalGroup.PublicKey.Key().Equal(c.pub) {
				add("C13/dkg-finished-foreign-public-key/"+label, "the finished record's group key is not the chain's public key")
			}
		}
	}
	if cur != nil {
		info["db_current"] = fmt.Sprintf("%s@%d", cur.State, cur.Epoch)
		switch {
		case fin != nil && cur.Epoch < fin.Epoch:
			add("C13/dkg-current-behind-finished/"+label, fmt.Sprintf("current %s@%d, finished epoch %d", cur.State, cur.Epoch, fin.Epoch))
		case fin != nil && cur.Epoch == fin.Epoch:
			a, _ := toml.Marshal(cur.TOML())
			b, _ := toml.Marshal(fin.TOML())
			if !bytes.Equal(a, b) {
				add("C13/dkg-finished-current-split/"+label, fmt.Sprintf("finished and current records of epoch %d differ (current is %s)", fin.Epoch, cur.State))
			}
		case cur.State == dkg.Complete && (fin == nil || cur.Epoch > fin.Epoch):
			add("C13/dkg-finished-current-split/"+label, fmt.Sprintf("current record says Complete@%d but the finished record is %v", cur.Epoch, dbEpoch))
		}
	}

	// (3) group file and share file
	gp, sp := filepath.Join(dir, c13RelGroup), filepath.Join(dir, c13RelShare)
	_, gerr := os.Stat(gp)
	_, serr := os.Stat(sp)
	gPresent, sPresent := gerr == nil, serr == nil
	var g *key.Group
	var s *key.Share
	gOK, sOK := false, false
	if gPresent {
		gg := new(key.Group)
		if err := key.Load(gp, gg); err != nil {
			add("C13/file-undecodable/group/"+label, err.Error())
		} else if len(gg.Nodes) == 0 || gg.PublicKey == nil || gg.Scheme == nil {
			add("C13/file-undecodable/group/"+label, "group file decodes to an empty group")
		} else {
			g, gOK = gg, true
		}
	}
	if sPresent {
		ss := new(key.Share)
		if err := key.Load(sp, ss); err != nil {
			add("C13/file-undecodable/share/"+label, err.Error())
		} else if ss.Share == nil || ss.Share.V == nil || len(ss.Commits) == 0 {
			add("C13/file-undecodable/share/"+label, "share file decodes to an empty share")
		} else {
			s, sOK = ss, true
		}
	}
	info["files"] = fmt.Sprintf("group present=%v ok=%v, share present=%v ok=%v", gPresent, gOK, sPresent, sOK)
	info["expect_sync"] = gOK && sOK && g.Find(c.victim) != nil
	info["fresh"] = !gPresent && !sPresent && fin == nil
	left := cur != nil && cur.State == dkg.Left
	switch {
	case !gPresent && !sPresent:
		if fin != nil && !left {
			add("C13/files-missing-db-complete/"+label, fmt.Sprintf("dkg.db records epoch %d as completed but there is neither a group file nor a share", dbEpoch))
		}
	case gPresent && !sPresent:
		if gOK {
			add("C13/group-without-share/"+label, fmt.Sprintf("group file (epoch %s) present, share file absent", c.epochOfGroup(g)))
		}
	case !gPresent && sPresent:
		if sOK {
			add("C13/share-without-group/"+label, fmt.Sprintf("share file (epoch %s) present, group file absent", c.epochOfShare(s)))
		}
	case gOK && sOK:
		if why := c.shareFitsGroup(s, g); why != "" {
			ge, se := c.epochOfGroup(g), c.epochOfShare(s)
			add("C13/group-share-epoch-mismatch/"+label, fmt.Sprintf("group file is epoch %s, share file is epoch %s: %s", ge, se, why))
		} else {
			// one epoch: it must be the one the database records as completed
			switch {
			case fin == nil:
				add("C13/files-ahead-of-db/"+label, fmt.Sprintf("group+share of epoch %s on disk but dkg.db records no completed epoch", c.epochOfGroup(g)))
			case fin.FinalGroup != nil && (!bytes.Equal(c13GroupBytes(g), c13GroupBytes(fin.FinalGroup)) || !c13SameShare(s, fin.KeyShare)):
				fe := c.epochOfGroup(g)
				sig := "C13/files-unknown-epoch/"
				if e, ok := c.epochNum(g); ok {
					if e < dbEpoch {
						sig = "C13/files-lag-db-epoch/"
					} else if e > dbEpoch {
						sig = "C13/files-ahead-of-db/"
					}
				}
				add(sig+label, fmt.Sprintf("dkg.db records epoch %d as completed, group+share files are those of epoch %s", dbEpoch, fe))
			}
		}
		if gOK && !g.PublicKey.Key().Equal(c.pub) {
			add("C13/group-file-foreign-public-key/"+label, "group file's distributed key is not the chain's public key")
		}
	}

	// (1) chain store
	if c.engine == chain.BoltDB {
		head, n, cerr := c.checkChain(dir)
		info["chain"] = fmt.Sprintf("head=%d len=%d", head, n)
		if cerr != nil {
			if cerr.sigPart == "missing" {
				// no chain db yet is legitimate only while nothing was served
				if img.HasSrv {
					add("C13/chain-db-missing/"+label, fmt.Sprintf("no drand.db although round %d had been stored", img.Served))
				}
			} else {
				add("C13/chain-"+cerr.sigPart+"/"+label, cerr.detail)
			}
		} else if img.HasSrv && (n == 0 || head < img.Served) {
			add("C13/chain-lacks-served-round/"+label, fmt.Sprintf("round %d was stored (its Put had returned) before the crash point, the image's chain ends at %d (len %d)", img.Served, head, n))
		}
	}
	return out, info, label
}

func (c *c13Checker) epochNum(g *key.Group) (uint32, bool) {
	gb := c13GroupBytes(g)
	for e, r := range c.epochs {
		if bytes.Equal(r.groupTOML, gb) {
			return e, true
		}
	}
	return 0, false
}

func (c *c13Checker) epochOfGroup(g *key.Group) string {
	if e, ok := c.epochNum(g); ok {
		return fmt.Sprint(e)
	}
	return "?"
}

func (c *c13Checker) epochOfShare(s *key.Share) string {
	for e, r := range c.epochs {
		if c13SameShare(r.share, s) {
			return fmt.Sprint(e)
		}
	}
	return "?"
}

type c13ChainErr struct{ sigPart, detail string }

func (c *c13Checker) checkChain(dir string) (head uint64, n int, cerr *c13ChainErr) {
	defer func() {
		if p := recover(); p != nil {
			cerr = &c13ChainErr{"db-open-panics", fmt.Sprintf("panic while opening/scanning the chain store: %v", p)}
		}
	}()
	dbFolder := filepath.Join(dir, filepath.Dir(c13RelChain))
	if _, err := os.Stat(filepath.Join(dir, c13RelChain)); err != nil {
		return 0, 0, &c13ChainErr{"missing", "no drand.db"}
	}
	ctx := context.Background()
	if c.sch.Name == crypto.DefaultSchemeID {
		ctx = chain.SetPreviousRequiredOnContext(ctx)
	}
	st, err := boltdb.NewBoltStore(ctx, c.lg, dbFolder)
	if err != nil {
		return 0, 0, &c13ChainErr{"db-unopenable", err.Error()}
	}
	defer st.Close()
	var prev *common.Beacon
	err = st.Cursor(ctx, func(ctx context.Context, cu chain.Cursor) error {
		b, err := cu.First(ctx)
		for ; err == nil && b != nil; b, err = cu.Next(ctx) {
			if prev == nil {
				if b.Round != 0 {
					cerr = &c13ChainErr{"gap", fmt.Sprintf("chain starts at round %d", b.Round)}
					return nil
				}
			} else if b.Round != prev.Round+1 {
				cerr = &c13ChainErr{"gap", fmt.Sprintf("round %d follows round %d", b.Round, prev.Round)}
				return nil
			}
			if b.Round > 0 {
				if c.sch.Name == crypto.DefaultSchemeID && !bytes.Equal(b.PreviousSig, prev.Signature) {
					cerr = &c13ChainErr{"broken-link", fmt.Sprintf("round %d does not link to the stored round %d", b.Round, prev.Round)}
					return nil
				}
				if verr := c.sch.VerifyBeacon(b, c.pub); verr != nil {
					cerr = &c13ChainErr{"unverifiable-beacon", fmt.Sprintf("round %d: %v", b.Round, verr)}
					return nil
				}
			}
			cp := *b
			prev = &cp
			n++
		}
		if err != nil && !errors.Is(err, chainerrors.ErrNoBeaconStored) {
			cerr = &c13ChainErr{"db-unreadable", err.Error()}
		}
		return nil
	})
	if err != nil && cerr == nil {
		cerr = &c13ChainErr{"db-unreadable", err.Error()}
	}
	if prev != nil {
		head = prev.Round
	}
	return head, n, cerr
}

func c13CurState(cur *dkg.DBState) string {
	if cur == nil {
		return "none"
	}
	return cur.State.String()
}
