//go:build race

package core

const vfnRaceEnabled = true
